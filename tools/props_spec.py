# property -> (title, Proofs imports, [(theorem name, proofs file, lemma, comment)], intro comment)
SPEC['C01'] = ('Top-down require returns what a from-scratch build would return', ['Local', 'Local2', 'History', 'ExecInv', 'ExecSession', 'Cert', 'Stable', 'NoBug4', 'Sim', 'NoAbort', 'Final', 'C01Witness', 'SimAll'], [
  ('C01_returns_cached_partial', 'Local2', 'make_consistent_returns_cached',
   'partial: whatever make_task_consistent returns is the cached output of the task, and the task is marked consistent for the session'),
  ('C01_reuse_needs_all_consistent_partial', 'Local', 'check_deps_inconsistent',
   'partial: a recorded resource dependency whose checker reports Inconsistent ends validation with "inconsistent" (no reuse)'),
], 'The full statement is proved for the class spelled out in the hypotheses of C01_incremental_equals_scratch (no target twice per execution, direct require of the generator before reading its product, exact write checkers, total stampers); programs outside that class (repeated targets, transitive generator requires, coarse write checkers) are decided by the correspondence run and the fresh-instance oracle.')
SPEC['C02'] = ('Top-down build does no unnecessary work', ['Local', 'Local2', 'History', 'ExecInv', 'ExecSession', 'Justify', 'Cert', 'Stable', 'NoBug4', 'Sim', 'NoAbort', 'Final', 'Valid', 'Idem', 'C01Witness', 'SimAll', 'BuJust', 'ExecJust', 'Mid'], [
  ('C02_zsession_conservative', 'Mid', 'run_zsession_plain', 'model hygiene: the runner for a Session that is used on after a caught abort (correspondence streams same_session / same_abort) is run_session as long as no build aborts'),
  ('C02_msession_conservative', 'Mid', 'run_msession_plain', 'model hygiene: the session-with-external-edits runner used by the correspondence streams td_mid / mid_session is run_session when there is no edit, so the session theorems apply to its edit-free cases'),
  ('C02_executions_justified_any_session', 'ExecJust', 'session_executions_justified',
   'GLOBAL "only if it has never completed before or a recorded dependency is reported inconsistent by its own checker": for ALL programs, checkers, fuel, stores and ALL sessions (requires and bottom-up builds in any mix, completed or aborted): every execution start in the event stream comes directly after a top-down dependency check that did not say consistent, or the task was scheduled earlier in the session (and every scheduling comes directly after a check of that task that did not say consistent), or the task had no output when the session began, or an execution of it started earlier in the session (excluded by C07)'),
  ('C02_consistent_checks_never_execute', 'ExecJust', 'consistent_checks_never_execute',
   'contrapositive: in a session in which no dependency check reports an inconsistency or fails, no task that completed before is executed'),
  ('C02_at_most_once_per_session', 'Final', 'session_at_most_once',
   'for ALL programs, checkers, fuel, stores satisfying the store invariants J (every store reachable by top-down histories does: C19_no_internal_error_all_histories) and ALL sessions of requires: the session event stream contains no task execution twice (also when the session ends in an abort)'),
  ('C02_executed_only_if_not_yet_consistent', 'ExecSession', 'session_require_execs',
   'every task executed by a require was not yet consistent (checked or executed) in this session when the require started, is executed once, and is consistent when the require returns'),
  ('C02_reuse_not_executed', 'Justify', 'mc_reuse',
   'justification, part 1: a task that has an output and whose recorded dependencies all validate is reused -- its cached output is returned and the task itself is not executed (whatever nested tasks were executed during validation), below any execution stack'),
  ('C02_inconsistent_only_after_failed_check', 'Justify', 'check_deps_false',
   'justification, part 2: validation answers inconsistent only directly after the own checker of one of the recorded dependencies reported so (the failing end event is the last event). With the shape of make_task_consistent: a task is executed only if it has no output or a recorded dependency failed its own check'),
  ('C02_memo', 'Local', 'make_consistent_memo', 'a task already made consistent in this session is returned from the cache: no event, no state change, hence no second execution'),
  ('C02_marks_consistent', 'Local2', 'make_consistent_returns_cached', 'every completed make_task_consistent marks the task consistent (so C02_memo applies to every later require in the session)'),
  ('C02_consistent_dep_continues', 'Local', 'check_deps_consistent', 'a dependency reported Consistent by its own checker does not stop validation'),
  ('C02_validation_in_order', 'Local', 'check_deps_app', 'dependencies are validated left to right in the recorded (creation) order: a consistent prefix is skipped over'),
], 'PARTIAL for the last clause (executed set is a subset of a from-scratch build for exact checkers): decided by correspondence + oracle.')
SPEC['C03'] = ('Bottom-up build leaves every known task up to date', ['Local2', 'Findings', 'BuDone', 'BuJust', 'ExecInv', 'Cert', 'Stable', 'NoAbort', 'Valid', 'Sim', 'C01Witness', 'OnceAll', 'UpToDate', 'UpToDateWitness', 'GoodHist', 'TdValid', 'NoBug4All', 'FullOut', 'UpToDateKnown'], [
  ('C03_every_known_task_has_an_output_abort_free', 'FullOut', 'full_outputs_any_history', 'for ALL programs and checkers: along any history in which no build aborts (from any store with the store invariants in which every known task has an output; the empty store is one), every task that has a node has an output'),
  ('C03_witness_premises', 'UpToDateWitness', 'C03_witness_premises', 'non-vacuity of the two theorems above: for the generator/consumer instance of C01Witness.v (static class, exact = reflexive checkers), after a session that built both tasks every recorded dependency is consistent (AllValid, decided by the verified checker allvalidb), the generator input is then changed and reported'),
  ('C03_witness_does_real_work', 'UpToDateWitness', 'C03_witness_does_real_work', '... the bottom-up build re-executes the generator and the consumer (newest first [0; 1]), stores the new output 211, and requiring the consumer in a new session returns 211'),
  ('C03_every_scheduled_task_is_executed', 'BuDone', 'bottom_up_executes_all_scheduled', 'partial, GLOBAL: for ALL programs, checkers, fuel, worlds and change sets, in a bottom-up build that completes every scheduling event of a task is followed (later in the event stream) by an execution start of that task: nothing that was found affected -- directly by a reported change, or indirectly by the output or writes of a task executed in the build -- is left unexecuted (the build ends with an empty queue)'),
  ('C03_schedule_complete_partial', 'Local2', 'schedule_affected_complete',
   'partial: reporting a changed resource queues EVERY task with a recorded read or write dependency on it whose checker does not report Consistent'),
  ('C03_mixed_refuted', 'Findings', 'C03_mixed_refuted',
   'recorded finding (O4): with a top-down build between the change and its report, the bottom-up build executes nothing and a task stays stale'),
], 'PARTIAL + recorded finding. The global statement is decided by correspondence + the probe-session oracle.')
SPEC['C04'] = ('Bottom-up build runs only affected tasks, once, in dependency order', ['Queue', 'Local', 'BuJust', 'BuOnce', 'BuOnce2', 'ExecInv', 'Cert', 'Stable', 'NoBug4All', 'NoAbort', 'NoAbortAll', 'HasOut', 'OnceAll', 'C01Witness', 'OnceWitness', 'MixedOnce', 'PopOrder'], [
  ('C04_popped_task_depends_on_no_queued_task', 'PopOrder', 'queue_pop_no_queued_dependency', 'DEPENDENCY ORDER in the words of the property: "a scheduled task is never executed before another scheduled task that it depends on". At Queue::pop (directly followed by the execution of the popped task), in ANY world whose dependency graph is well formed -- every reachable world, by C06_store_invariant_every_reachable_state -- the popped task has no path of recorded dependencies to any task that stays queued'),
  ('C04_pulled_task_depends_on_no_queued_task', 'PopOrder', 'pop_least_no_queued_dependency', 'the same at pop_least_task_with_dependency_from (a task executing in the build requires a task with scheduled dependencies)'),
  ('C04_pulled_task_is_a_dependency_of_the_requirer', 'PopOrder', 'pop_least_takes_a_dependency', 'and what is pulled forward is the required task itself or one of its transitive dependencies: nothing unrelated is executed early'),
  ('C04_witness_does_real_work', 'OnceWitness', 'C04_witness_does_real_work', 'non-vacuity of C04_at_most_once_static_class: for the witness program of C01 (a generator and its consumer, static class, exact checkers), after a history that built both and then changed the generator input, the bottom-up build over that input completes and executes the generator and then the consumer (newest first: [0; 1]), each once'),
  ('C04_second_execution_only_after_rescheduling', 'BuOnce2', 'bottom_up_second_execution_rescheduled', 'at-most-once, second step (BuOnce.v + NoReentry.v), for ALL programs and checkers: in the bottom-up build that opens a session after ANY history (completed or aborted), between two execution starts of the same task the task was scheduled again -- the alternative of C04_at_most_once_partial (the earlier execution still open) is excluded by C07 for all sessions'),
  ('C04_at_most_once_partial', 'BuOnce', 'bottom_up_no_duplicate_execution', 'the at-most-once clause, PARTIAL but global: for ALL programs, checkers, fuel, worlds and change sets, in ANY bottom-up build (completed or aborted) a second execution of a task t can only start if, since the previous start of t, t was scheduled again or that previous execution has not ended -- the queue bookkeeping and the "new task" shortcut never duplicate an execution (what failed before the repair of O14). Missing for the full clause: a task is not scheduled again after it ran (the hidden-dependency argument inside the class), and an executing task is not re-entered (the cycle check); both are decided by the oracle executed-twice on every run'),
  ('C04_executions_justified_all_builds', 'BuJust', 'bottom_up_executions_justified', 'GLOBAL form of "only affected tasks run": for ALL programs, checkers, fuel, ALL worlds and change sets, in the event stream of ANY bottom-up build (completed or aborted) every task execution is of a task that was scheduled earlier in this build or had no output when the build started (required for the first time), and every scheduling event is directly preceded by the end of a dependency check of that task whose checker reported inconsistency or failed (SJ)'),
  ('C04_unaffected_not_executed', 'BuJust', 'unaffected_not_executed', 'contrapositive: a task that has an output when the build starts and is not scheduled in the build (none of its recorded dependencies is reported inconsistent, including when an executed dependency produced an output its checker accepts) is not executed in the build'),
  ('C04_pop_max', 'Queue', 'queue_pop_max', 'Queue::pop yields a queued task of maximal topological rank (no queued task it depends on remains), removes exactly it, and touches nothing else'),
  ('C04_pop_least', 'Queue', 'pop_least_from_max', 'pop_least_task_with_dependency_from yields the maximal-rank queued task among src and its transitive dependencies'),
  ('C04_pop_least_none', 'Queue', 'pop_least_from_none', 'and answers None only if no queued task is src or one of its transitive dependencies'),
  ('C04_cutoff', 'Local', 'schedule_requirer_cutoff', 'early cut-off: a requirer whose checker accepts the new output is not scheduled'),
  ('C04_affected_scheduled', 'Local', 'schedule_requirer_schedules', 'a requirer whose checker rejects the new output is scheduled'),
], 'The at-most-once clause is PARTIAL (decided by correspondence + oracle).')
SPEC['C05'] = ('Hidden dependencies are always detected', ['Local', 'History', 'ExecInv', 'ExecSession', 'Cert', 'Stable', 'NoBug4', 'Sim', 'NoAbort', 'Final', 'NoAbortAll', 'Findings'], [
  ('C05_read_detected', 'Local', 'sess_read_hidden', 'a read of a resource whose recorded writer is not a transitive dependency of the reader aborts with a hidden dependency; nothing is modified'),
  ('C05_read_abort_only_then', 'Local', 'sess_read_hidden_only', 'and a read aborts with a hidden dependency only in that situation'),
  ('C05_write_detected', 'Local', 'validate_write_hidden', 'a write to a resource with a recorded reader that does not transitively require the writer is diagnosed'),
  ('C05_write_rejected_before_modification', 'Local', 'sess_write_rejected', 'a diagnosed Context::write aborts before the resource is modified'),
  ('C05_final_store_refuted', 'Findings', 'C05_final_store_refuted', 'recorded finding (O6): the "Hence" clause fails when an intermediate task drops its require but keeps its output'),
], 'Detection is proved at the operation level for all worlds; the "Hence" clause is a recorded finding.')
SPEC['C06'] = ('Overlapping writes are always detected', ['Local', 'History', 'NoBug4All', 'ResetWriter'], [
  ('C06_reexecuted_writer_is_not_its_own_overlap', 'ResetWriter', 'reset_task_clears_own_writes', '"re-execution of the same writer, however it is reached, is never reported as an overlap": every execution starts with reset_task; in every world satisfying the store invariant (every reachable world) the task is afterwards not a recorded writer of ANY resource, so an overlap its writes meet names a different task -- also when its previous execution was aborted after the write'),
  ('C06_store_invariant_every_reachable_state', 'NoBug4All', 'history_no_bug4', 'UNCONDITIONAL form of the next theorem: for ALL programs, checkers, fuel and ALL histories (edits, environment switches, sessions of top-down requires and bottom-up builds in any mix, completed or aborted) no session ends with the model-only "node missing / search fuel" error, and the store reached is a well-formed acyclic graph with gap-free ranks, typed edges and at most one recorded writer per resource'),
  ('C06_store_invariant_all_histories', 'History', 'reachable_store_ok', 'for ALL programs, checkers, fuel and histories (edits, sessions of requires and bottom-up builds, including worlds left by aborts): the store is a well-formed DAG, well typed, with at most one recorded writer per resource'),
  ('C06_single_writer', 'History', 'store_single_writer', 'hence two recorded writers of one resource are the same task'),
  ('C06_detected', 'Local', 'validate_write_overlap', 'a recorded writer makes every further write / written_to of the resource an overlap'),
  ('C06_write_rejected_before_modification', 'Local', 'sess_write_rejected', 'Context::write aborts before the resource is modified'),
  ('C06_written_to_rejected', 'Local', 'sess_written_to_rejected', 'written_to aborts as well (the resource was already modified through create_writer)'),
  ('C06_abort_only_then', 'Local', 'sess_write_abort_only', 'a write aborts with overlap/hidden only when validate_write diagnoses it'),
], 'The single-writer invariant is proved over whole histories through the generic invariant principle (Inv.v, StoreInv.v, History.v); the only excluded outcome is the model-only abort ABug 4 (graph search fuel).')
SPEC['C07'] = ('Cyclic task requirements are detected instead of recursing', ['Local', 'History', 'ExecInv', 'ExecSession', 'Cert', 'Stable', 'NoBug4', 'Sim', 'Final', 'NoReentry'], [
  ('C07_no_task_entered_while_executing_any_session', 'NoReentry', 'no_task_entered_while_executing', 'for ALL programs, checkers, fuel, ALL histories and ALL sessions -- top-down requires and bottom-up builds in any mix, completed or aborted: whenever a task starts executing, no execution of it is open (opens b = the unmatched execution starts of the events before); i.e. a (transitively) self-requiring task is never recursed into, also in the bottom-up context where a task enters execution through the queue. Proof: the task in progress and its graph ancestors are protected (adjacency only grows, none is started) because every started task is reached from it and the graph is acyclic'),
  ('C07_require_of_task_on_stack_aborts', 'ExecInv', 'require_on_stack_aborts',
   'the execution stack t :: S (t executing; each task below it requires the one above through a recorded edge): requiring ANY task on the stack, at any distance, aborts with a cyclic dependency before make_task_consistent is entered (ABug 4 = model-only graph search fuel)'),
  ('C07_no_task_entered_twice', 'Final', 'session_at_most_once',
   'over whole sessions of requires, including the aborted ones: no task is executed a second time'),
  ('C07_stack_discipline', 'ExecInv', 'make_consistent_td_spec',
   'the induction behind both: make_task_consistent entered below a stack S never touches the recorded dependencies of a stack task, never executes or marks a stack task, and executes only tasks that were not consistent'),
  ('C07_dependency_graph_acyclic_all_histories', 'History', 'store_acyclic', 'in every reachable store (C06_store_invariant_all_histories) the recorded dependency graph has no cycle'),
  ('C07_cycle_aborts_before_execution', 'Local', 'require_cycle_aborts',
   'if reserving the require edge is rejected as a cycle, require aborts with a cyclic dependency whatever make_task_consistent would do: it is never entered'),
], 'Together with C10 (add_edge rejects exactly when the destination reaches the source) this gives detection for cycles of any length; no re-entry is proved over whole top-down sessions (ExecInv.v); for bottom-up builds it is decided by correspondence + oracle.')
SPEC['C08'] = ('Recorded dependencies are exactly those of the latest execution', ['Findings', 'Local2', 'History', 'ExecInv', 'ExecSession', 'Cert', 'Stable', 'NoBug4', 'Sim', 'Final', 'CertAll'], [
  ('C08_general_refuted', 'Findings', 'C08_general_refuted', 'recorded finding (O7): with two different checkers on one target only the last require checker is kept'),
  ('C08_require_records_checker_and_stamp', 'Local2', 'update_require_dependency_done', 'a completed require records exactly DRequire t c stamp on the edge from the executing task'),
], 'PARTIAL: exactness over whole executions is decided by the store-dump correspondence and the op-log oracle.')
SPEC['C09'] = ('Consistency is decided by the dependency checker on a timely stamp', ['Local', 'Local2', 'Justify', 'BuJust', 'TdForward', 'ExecJust', 'Mid', 'SecondRead'], [
  ('C09_second_read_keeps_first_dependency', 'SecondRead', 'second_read_keeps_first_dependency', 'one dependency per (task, target): a task that reads a resource it has already read or written in the same execution, with whatever checker, leaves the dependency graph exactly as it was -- the dependency recorded FIRST, with its checker and its stamp, is the one that later decides consistency (with a more lenient first checker this is the read form of the recorded finding O7)'),
  ('C09_failed_check_then_execution_with_mid_session_edits', 'Mid', 'msession_failed_check_then_execution', 'the same for sessions during which resources change from outside (the session contract broken)'),
  ('C09_executions_justified_session_reused_after_abort', 'Mid', 'zsession_executions_justified', 'the same when the Session is used on after a caught abort'),
  ('C09_executions_justified_with_mid_session_edits', 'Mid', 'msession_executions_justified', 'the same for sessions during which resources change from outside'),
  ('C09_failed_check_then_execution_any_session', 'TdForward', 'session_failed_check_then_execution', 'GLOBAL "an inconsistent dependency always causes re-execution when its owner is validated": for ALL programs, checkers, fuel, stores and ALL sessions (any mix of requires and bottom-up builds, completed or aborted): a top-down dependency check whose checker did not say consistent (inconsistent, or failed) is never the last event and the event directly after it is the start of a task execution -- no further check, no reuse'),
  ('C09_failed_check_executes_owner', 'TdForward', 'mc_failed_check_executes_owner', 'which task: when the validation of the recorded dependencies of t answers inconsistent, the failing check end is the last event, it belongs to one of the recorded dependencies of t, and make_task_consistent continues by executing t from that world (first event EExecStart t)'),
  ('C09_executions_justified_any_session', 'ExecJust', 'session_executions_justified', 'GLOBAL "a dependency whose checker reports consistency never causes re-execution": every execution start in ANY session comes directly after a failing top-down check, or after an earlier scheduling of the task (itself directly after a check of that task that did not say consistent), or the task had no output when the session began (or is re-entered: excluded by C07)'),
  ('C09_consistent_checks_never_execute', 'ExecJust', 'consistent_checks_never_execute', 'contrapositive: in a session in which no dependency check reports an inconsistency or fails, no task that completed before is executed'),
  ('C09_stamp_read', 'Local2', 'sess_read_done', 'read: the stamp is taken from the very content handed to the task, before the task continues'),
  ('C09_stamp_write', 'Local2', 'sess_write_done', 'write: the stamp is taken from the content after the write function has run'),
  ('C09_stamp_require', 'Local2', 'require_with_done', 'require: the stamp is the output checker stamp of the very output returned to the requirer'),
  ('C09_decides_consistent', 'Local', 'check_deps_consistent', 'validation: Consistent from the dependency own checker on its stored stamp => validation continues'),
  ('C09_decides_inconsistent', 'Local', 'check_deps_inconsistent', 'validation: Inconsistent => the owner is not reused'),
], 'For arbitrary checker records.')
SPEC['C16'] = ('Build behaviour is a deterministic function of the history', ['Sorting', 'DagWF', 'DagRun', 'Queue', 'Determinism', 'DetStore'], [
  ('C16_sort_order_independent', 'Sorting', 'sort_by_order_independent',
   'the only places where the code iterates unordered containers (the two change sets of reorder_nodes, the bottom-up queue) sort by unique ranks: the result is independent of the arrival order'),
], 'The model is a function of the history by construction; what the theorems add: the ITERATION ORDER of the unordered containers the code iterates (the two HashSets of reorder_nodes; the push order of the bottom-up queue) does not reach any result. The runtime part (hash seeds, processes, allocation addresses) is decided by two-process replay.')
RAW['C16'] = [
  ('C16_reorder_depends_on_sets_only',
   'reorder_nodes: the two change sets may be handed over in any order and with any multiplicity; only their membership counts (ranks injective on them, which WF gives for live nodes)',
   """  forall (E : Type) (g : dag E) cf cf' cb cb',
  (forall x, In x cf <-> In x cf') -> (forall x, In x cb <-> In x cb') ->
  (forall x y, In x cf -> In y cf -> rank_of g x = rank_of g y -> x = y) ->
  (forall x y, In x cb -> In y cb -> rank_of g x = rank_of g y -> x = y) ->
  reorder_nodes g cf cb = reorder_nodes g cf' cb'""",
   'intros E g cf cf\' cb cb\'. exact (@reorder_nodes_set_independent E g cf cf\' cb cb\').'),
  ('C16_add_edge_independent_of_set_iteration_order',
   'add_edge_sh is the text of add_edge with the two change sets passed through ARBITRARY functions of the whole graph that keep membership (the iteration order a differently seeded HashSet would produce, repetitions allowed): on every well-formed graph it returns the same answer and the same graph as add_edge',
   """  forall (E : Type) (shf shb : dag E -> list node -> list node),
  (forall g l x, In x (shf g l) <-> In x l) -> (forall g l x, In x (shb g l) <-> In x l) ->
  forall (g : dag E) s d e, WF g -> add_edge_sh shf shb g s d e = add_edge g s d e""",
   'intros E shf shb Hf Hb g s d e. exact (@add_edge_iteration_order_independent E shf shb Hf Hb g s d e).'),
  ('C16_graph_independent_of_set_iteration_order_all_sequences',
   'hence for EVERY operation sequence from the empty graph (the quantifier of C10/C11), with no premise: the graph reached is the same whatever the iteration orders were',
   """  forall (E : Type) (shf shb : dag E -> list node -> list node),
  (forall g l x, In x (shf g l) <-> In x l) -> (forall g l x, In x (shb g l) <-> In x l) ->
  forall (ops : list (gop E)), grun_sh shf shb ops = grun ops""",
   'intros E shf shb Hf Hb ops. exact (@grun_iteration_order_independent E shf shb Hf Hb ops).'),
  ('C16_store_add_dependency_independent_of_set_iteration_order',
   'engine level: Store::add_dependency is the one place where the engine reaches an unordered iteration; with the change sets iterated in ANY order it returns the same answer and the same world in every world that satisfies the store invariant, i.e. in every reachable world (C06_store_invariant_every_reachable_state)',
   """  forall (shf shb : dag dep -> list node -> list node),
  (forall g l x, In x (shf g l) <-> In x l) -> (forall g l x, In x (shb g l) <-> In x l) ->
  forall w s d dp, StoreOK w -> add_dependency_sh shf shb w s d dp = add_dependency w s d dp""",
   'intros shf shb Hf Hb w s d dp. exact (add_dependency_iteration_order_independent shf shb Hf Hb w s d dp).'),
  ('C16_queue_pop_independent_of_push_order',
   'Queue::pop: the task popped and the queue left behind depend on the set of queued tasks only (unique ranks), not on the order in which they were pushed',
   """  forall (w : world) (q' : list task),
  Permutation (queue w) q' -> NoDup (map (rank_t w) (queue w)) ->
  queue_pop (set_queue w q') = queue_pop w""",
   'exact queue_pop_order_independent.'),
  ('C16_pop_least_independent_of_push_order',
   'pop_least_task_with_dependency_from likewise',
   """  forall (w : world) (src : task) (q' : list task),
  Permutation (queue w) q' -> NoDup (map (rank_t w) (queue w)) ->
  pop_least_from (set_queue w q') src = pop_least_from w src""",
   'exact pop_least_from_order_independent.'),
]
SPEC['C18'] = ('Checker errors during validation never cause stale reuse and are reported', ['Local', 'ErrRep', 'BuJust', 'Justify', 'TdForward', 'Mid'], [
  ('C18_errors_reported_session_reused_after_abort', 'Mid', 'zsession_errors_reported', 'never swallowed, also when the Session is used on after a caught abort'),
  ('C18_errors_reported_with_mid_session_edits', 'Mid', 'msession_errors_reported', 'never swallowed, also in sessions during which resources change from outside'),
  ('C18_td_failed_check_then_execution_any_session', 'TdForward', 'session_failed_check_then_execution', 'GLOBAL top-down "treated as inconsistent, so its task is re-executed, never reuse": in ANY session a top-down dependency check that ends with a checker ERROR (or with inconsistent) is directly followed by the start of a task execution; the task is the owner (C18_td_failed_check_executes_owner)'),
  ('C18_td_failed_check_executes_owner', 'TdForward', 'mc_failed_check_executes_owner', 'the owner of the failing dependency is the task that is executed next'),
  ('C18_errors_reported_all_sessions', 'ErrRep', 'session_errors_reported', 'GLOBAL "never swallowed": for ALL programs, checkers, fuel, stores and ALL sessions (top-down requires and bottom-up builds in any mix, any number of failures, completed or aborted), every dependency-check end event in the session that carries a checker error has that error in the session\'s dependency_check_errors'),
  ('C18_bu_failed_check_schedules', 'BuJust', 'bottom_up_executions_justified', 'bottom-up, global: the SJ clause -- a scheduling event is directly preceded by a check end of that task that is NOT "consistent", which a failed check is (try_schedule: C18_bu_error shows the failing check is followed by the scheduling)'),
  ('C18_position_independent', 'Local', 'check_deps_app', 'a consistent prefix of the dependency list is skipped: the following lemmas apply at ANY position'),
  ('C18_td_error', 'Local', 'check_deps_error', 'top-down: an erring resource checker ends validation with "inconsistent", pushes the error, never aborts'),
  ('C18_bu_error', 'Local', 'try_schedule_error', 'bottom-up: an erring checker pushes the error and schedules the task'),
], 'For arbitrary checker records and worlds.')
SPEC['C19'] = ('An aborted build leaves the Pie instance usable and sound', ['Local', 'History', 'ExecInv', 'ExecSession', 'Cert', 'Stable', 'NoBug4', 'NoBug4All', 'NoReentry', 'NoBugAll', 'Sim', 'Final', 'Findings', 'SimAll', 'Mid'], [
  ('C19_store_invariants_session_reused_after_abort', 'Mid', 'zsession_store_invariants', 'the store invariants (hence no node-missing internal error) also survive a Session that is used on after caught aborts, with or without external edits in between'),
  ('C19_store_invariants_with_mid_session_edits', 'Mid', 'msession_store_invariants', 'the store invariants (and hence: no node-missing internal error) survive sessions during which resources change from outside, from any store satisfying them'),
  ('C19_no_internal_error_any_history', 'NoBugAll', 'no_internal_error_any_history', 'for ALL programs, checkers, fuel and ALL histories -- top-down requires and bottom-up builds in any mix, any number of aborted builds at any point: every build either completes or aborts for a user-level reason (task panic, cyclic dependency, hidden dependency, overlapping write); none of the internal "BUG" panics (check of a reserved dependency, no output for a consistent task, no dependency found at update, edge without data, no output for an unaffected task, node missing) can occur; the store invariants and "a reserved edge only leaves a task without output" hold in every reachable state'),
  ('C19_store_invariants_any_history', 'NoBug4All', 'history_no_bug4', 'for ALL programs, checkers and histories, top-down, bottom-up and mixed, with any number of aborted builds at any point: the instance is left with a well-formed store (acyclic, gap-free ranks, typed edges, single writer) and never with a "node missing" internal error'),
  ('C19_any_session_from_invariant', 'NoBug4All', 'run_session_R', 'the step form: from ANY world satisfying the invariant L (store invariants + the executing task and all queued tasks have nodes), any session (requires, bottom-up builds, aborted or not) ends in a world satisfying L again'),
  ('C19_spurious_cycle_after_abort_refuted', 'Findings', 'C19_spurious_cycle_after_abort_refuted', 'recorded finding (O13): for programs whose require structure changes with the state, a repaired cycle can leave a reserved edge of the aborted task behind that makes a later build abort with a cycle that no longer exists'),
  ('C19_no_internal_error_all_histories', 'Final', 'history_sound',
   'for ALL programs, checkers, fuel and ALL histories of top-down sessions and external changes from the empty store: every session result is a value, a user-level abort (task panic, cycle, hidden dependency, overlapping write) or out-of-fuel -- never one of the internal-invariant panics (ABug 1 reserved dependency checked, 2 consistent task without output, 3 require dependency missing, 5 edge without data) -- and the final store satisfies both store invariants (J), whatever aborted before. The model-only abort ABug 4 is proved unreachable (NoBug4.v, DagNoFuel.v)'),
  ('C19_abort_leaves_invariants', 'ExecSession', 'session_require_execs',
   'one require from any store satisfying J: if it aborts, the abort is user-level and J holds in the store left behind (reserved edges only leave tasks without output; consistent tasks have outputs), so the next session starts from J again'),
  ('C19_store_invariant_survives_aborts', 'History', 'run_history_ok', 'whatever aborts (task panic, cycle, hidden dependency, overlapping write, at any point), the world left behind satisfies the store invariant, from which every later session starts'),
  ('C19_no_output_executes', 'Local', 'make_consistent_no_output',
   'a task without output (new, or its last execution aborted) is executed without inspecting its left-over dependencies (so a ReservedRequire edge is never consistency-checked)'),
], 'No-internal-error and invariant recovery are proved for all top-down histories (ExecInv.v, ExecSession.v); that later builds return from-scratch results (the C01 clause) is decided by correspondence + oracle (panic injected at arbitrary operations).')
SPEC['C20'] = ('Incremental builds abort only for violations that exist now', ['Local', 'History', 'ExecInv', 'ExecSession', 'Cert', 'Stable', 'NoBug4', 'Sim', 'NoAbort', 'Final', 'NoAbortAll', 'Findings'], [
  ('C20_write_abort_iff_recorded', 'Local', 'validate_write_none', 'a write is accepted exactly when no writer is recorded and every recorded reader transitively requires the writer'),
  ('C20_write_abort_only_then', 'Local', 'sess_write_abort_only', 'aborts of a write come only from that diagnosis'),
  ('C20_read_abort_only_then', 'Local', 'sess_read_hidden_only', 'aborts of a read come only from a recorded writer that is not a transitive dependency'),
  ('C20_dynamic_refuted_overlap', 'Findings', 'C20_dynamic_refuted_overlap', 'recorded finding (O5a)'),
  ('C20_dynamic_refuted_overlap_bottom_up', 'Findings', 'C20_dynamic_refuted_overlap_bottom_up', 'recorded finding (O5a, bottom-up form): after a round trip of the writer role, each switch reported to a bottom-up build, no recorded dependency relates the old and the new writer; the build runs them in the order of their stale ranks, the new writer first'),
  ('C20_dynamic_refuted_cycle', 'Findings', 'C20_dynamic_refuted_cycle', 'recorded finding (O5b)'),
  ('C20_dynamic_refuted_hidden', 'Findings', 'C20_dynamic_refuted_hidden', 'recorded finding (O5c)'),
], 'Aborts are decided on RECORDED dependencies; three role-inversion patterns where recorded and current behaviour differ are recorded findings.')

CLASS_BINDERS = '''  forall (RC : rcid -> rchecker) (OC : ocid -> ochecker) (P : task -> prog) (sf : rcid -> res -> content -> Z) (always : ocid),
  (forall c env r v, rc_stamp (RC c) env r v = inl (sf c r v)) ->     (* stampers are total and do not depend on the checker environment *)
  (forall t, NR [] (P t)) ->                                          (* no program touches a target twice in one execution *)
'''
RAW['C08'] = [
  ('C08_exact_record_any_history',
   'the same for ALL histories: top-down requires and bottom-up builds in any mix, external changes, any number of aborted builds (CertAll.v, anchor style with equality frames for the rows of the protected tasks): for every task that has an output the store holds exactly one complete run of its program',
   CLASS_BINDERS + """  forall fuel h,
  forall t o, get_task_output (snd (run_history RC OC P always fuel init_world h)) t = Some o ->
    Rep RC OC sf (row (snd (run_history RC OC P always fuel init_world h)) t) (P t) [] o
        (kidsT (snd (run_history RC OC P always fuel init_world h)) t)""",
   'intros RC OC P sf always HS HNR fuel h t o. exact (exact_record_any_history RC OC P sf HS HNR always fuel h t o).'),
  ('C08_exact_record_all_histories',
   'for ALL programs of the class, checkers, fuel and ALL histories of top-down sessions and external changes from the empty store (also after aborted builds): for every task that has an output, the dependencies held by the store (row = edge data, kidsT = edge order) are EXACTLY the requires, reads and writes of one complete run of its program ending in that output: same targets in the same order, the checker that was passed, a stamp of the value that run saw; nothing left over (Rep is defined in Proofs/Cert.v)',
   CLASS_BINDERS + """  forall fuel h, td_hist h ->
  forall t o, get_task_output (snd (run_history RC OC P always fuel init_world h)) t = Some o ->
    Rep RC OC sf (row (snd (run_history RC OC P always fuel init_world h)) t) (P t) [] o
        (kidsT (snd (run_history RC OC P always fuel init_world h)) t)""",
   'intros RC OC P sf always HS HNR. exact (exact_record_all RC OC P always sf HS HNR).'),
]

C01_BINDERS = '''  forall (gen : res -> option task) (wck : rcid -> Prop)
         (RC : rcid -> rchecker) (OC : ocid -> ochecker) (P : task -> prog) (sf : rcid -> res -> content -> Z) (always : ocid),
  (forall c env r v, rc_stamp (RC c) env r v = inl (sf c r v)) ->                 (* stampers are total and do not depend on the checker environment *)
  (forall t, WFP gen wck t [] (P t)) ->                                           (* program class: no target twice per execution; a generated resource is read only after its generator was required; tasks write only their own products, through checkers in wck *)
  (forall c env r v v', rc_check (RC c) env r v' (sf c r v) = Consistent -> rc_view (RC c) v' = rc_view (RC c) v) ->   (* a resource checker that accepts a new value shows the reader the same view: "outputs depend only on what their checkers observe" *)
  (forall c env r v v', wck c -> rc_check (RC c) env r v' (sf c r v) = Consistent -> v' = v) ->                        (* write checkers accept only the written value *)
  (forall c o o', oc_check (OC c) o' (oc_stamp (OC c) o) = true -> oc_view (OC c) o' = oc_view (OC c) o) ->            (* the same for output checkers *)
'''
RAW['C01'] = [
  ('C01_incremental_equals_scratch',
   'THE property: after ANY history h of top-down sessions and external changes from the empty store (every interleaving of edits, creations, deletions, overwrites of source and generated resources; aborted builds included), a session requiring ANY sequence of roots that returns on the incremental store returns exactly the outputs -- and leaves every resource with exactly the content -- that the same session produces on a fresh store holding the same resources (fresh_of), provided that from-scratch session returns too. For all programs of the class, all checkers satisfying the view conditions, all fuel; no premise about the model-only abort (NoBug4.v)',
   C01_BINDERS + """  forall fuel fuel0 h ops, td_hist h -> td_only ops ->
  let w := snd (run_history RC OC P always fuel init_world h) in
  let ra := run_session RC OC P always fuel (new_session w) ops in
  let rb := run_session RC OC P always fuel0 (new_session (fresh_of w)) ops in
  Forall Sim.is_done (fst ra) -> Forall Sim.is_done (fst rb) ->
  fst ra = fst rb /\\ forall r, get_content (snd ra) r = get_content (snd rb) r""",
   'intros gen wck RC OC P sf always HS HWF HC HW HOC. exact (incremental_equals_scratch_all RC OC P always gen wck sf HS HWF HC HW HOC).'),
  ('C01_simulation',
   'the induction behind it: make_task_consistent on the incremental store (run A: K = every recorded dependency list is a complete run of its program, C08) and on a from-scratch store (run B) started in Sim-related worlds (same resource contents, same consistent set, same outputs of consistent tasks) return the same output and end in Sim-related worlds -- below any execution stacks, for any two fuels',
   C01_BINDERS.replace(' (always : ocid),', ',') + """  forall f, SIMMC RC OC P sf f""",
   'intros gen wck RC OC P sf HS HWF HC HW HOC. exact (sim_mc gen wck RC OC P sf HS HWF HC HW HOC).'),
  ('C01_hypotheses_satisfiable',
   'non-vacuity: exact checkers and a generator/consumer pair of tasks satisfy every hypothesis, and the history [set r1 := 1; build; set r1 := 2] with the session [require consumer] satisfies every premise',
   """  td_hist hx /\\ td_only opsx /\\ ~ Exists (Exists bug4) (fst (run_history RCx OCx Px 0 50 init_world hx)) /\\
  Forall Sim.is_done (fst (run_session RCx OCx Px 0 50 (new_session (snd (run_history RCx OCx Px 0 50 init_world hx))) opsx)) /\\
  Forall Sim.is_done (fst (run_session RCx OCx Px 0 50 (new_session (fresh_of (snd (run_history RCx OCx Px 0 50 init_world hx)))) opsx))""",
   'exact C01_premises.'),
  ('C01_witness_does_real_work',
   'in that instance the incremental session re-executes the generator and then the consumer and returns the changed result (211 after 207)',
   """  fst (run_session RCx OCx Px 0 50 (new_session (snd (run_history RCx OCx Px 0 50 init_world hx))) opsx) = [RDone (Some 211%Z)] /\\
  execs (rev (trace (snd (run_session RCx OCx Px 0 50 (new_session (snd (run_history RCx OCx Px 0 50 init_world hx))) opsx)))) = [1; 0] /\\
  fst (run_history RCx OCx Px 0 50 init_world hx) = [[]; [RDone (Some 207%Z)]; []]""",
   'exact C01_nontrivial.'),
]

RAW['C19'] = [
  ('C19_later_builds_equal_scratch',
   'the C01 theorem, restated: its histories h contain sessions that ended in ANY abort (run_session stops at the abort and leaves the store as the unwinding left it; td_hist does not restrict results); a later session that returns agrees with a from-scratch session on the then-current resources',
   RAW['C01'][0][2], RAW['C01'][0][3]),
]

TOTAL_BINDERS = '''  forall (gen : res -> option task) (wck : rcid -> Prop) (ord : task -> nat)
         (RC : rcid -> rchecker) (OC : ocid -> ochecker) (P : task -> prog) (sf : rcid -> res -> content -> Z) (always : ocid),
  (forall c env r v, rc_stamp (RC c) env r v = inl (sf c r v)) ->    (* stampers total, independent of the checker environment *)
  (forall t, WFP gen wck t [] (P t)) ->                              (* no target twice; generator required before its product is read; writes only to own products *)
  (forall t, WFO ord t (P t)) ->                                     (* requires go down in a well-founded order; no task panics *)
'''
RAW['C01'] += [
  ('C01_incremental_equals_scratch_any_history',
   'THE property over EVERY history ("whatever was built before"): top-down requires AND bottom-up builds in any mix, external changes, any number of aborted builds. A session requiring ANY sequence of root tasks that returns, returns exactly what the same session returns on a fresh store holding the current resources, and leaves the same resource contents. SimAll.v: the simulation of Sim.v needs of the incremental side only the store invariants and the exact-record invariant K, which NoBugAll.v / CertAll.v establish after every history; no top-down premise, no fuel premise',
   C01_BINDERS + """  forall fuel fuel0 h ops, td_only ops ->
  let w := snd (run_history RC OC P always fuel init_world h) in
  let ra := run_session RC OC P always fuel (new_session w) ops in
  let rb := run_session RC OC P always fuel0 (new_session (fresh_of w)) ops in
  Forall Sim.is_done (fst ra) -> Forall Sim.is_done (fst rb) ->
  fst ra = fst rb /\\ forall r, get_content (snd ra) r = get_content (snd rb) r""",
   'intros gen wck RC OC P sf always HS HWF HC HW HOC. exact (incremental_equals_scratch_any_history gen wck RC OC P sf always HS HWF HC HW HOC).'),
  ('C01_total_any_history',
   'in the static class both sessions return, after every history (top-down, bottom-up, mixed): outputs and resource contents agree',
   TOTAL_BINDERS + """  (forall c env r v v', rc_check (RC c) env r v' (sf c r v) = Consistent -> rc_view (RC c) v' = rc_view (RC c) v) ->
  (forall c env r v v', wck c -> rc_check (RC c) env r v' (sf c r v) = Consistent -> v' = v) ->
  (forall c o o', oc_check (OC c) o' (oc_stamp (OC c) o) = true -> oc_view (OC c) o' = oc_view (OC c) o) ->
  forall fuel fuel0 h ops, roots_below ord fuel ops -> roots_below ord fuel0 ops ->
  let w := snd (run_history RC OC P always fuel init_world h) in
  let ra := run_session RC OC P always fuel (new_session w) ops in
  let rb := run_session RC OC P always fuel0 (new_session (fresh_of w)) ops in
  Forall Sim.is_done (fst ra) /\\ Forall Sim.is_done (fst rb) /\\ fst ra = fst rb /\\ forall r, get_content (snd ra) r = get_content (snd rb) r""",
   'intros gen wck ord RC OC P sf always HS HWF HWO HC HW HOC. exact (incremental_equals_scratch_total_any_history gen wck ord RC OC P sf always HS HWF HWO HC HW HOC).'),
]
RAW['C19'] += [
  ('C19_later_builds_equal_scratch_any_history',
   'the soundness clause over EVERY history: after any number of aborted builds of either kind (top-down or bottom-up), at any point, a later session of requires that returns agrees with a from-scratch session in the current state (= C01_incremental_equals_scratch_any_history)',
   RAW['C01'][-2][2], RAW['C01'][-2][3]),
]

RAW['C20'] = [
  ('C20_static_class_never_aborts_any_history',
   'the first clause for ALL histories: in the static class no build of ANY history aborts -- top-down requires and bottom-up builds in any mix (NoAbortAll.v: anchor-style pass carrying the invariants of NoBugAll.v, the exact-record invariant K of CertAll.v and Q of NoAbort.v); a build either completes or runs out of the model fuel',
   TOTAL_BINDERS + """  forall fuel h,
  Forall (Forall (fun r => match r with RAbort _ => False | _ => True end)) (fst (run_history RC OC P always fuel init_world h))""",
   'intros gen wck ord RC OC P sf always HS HWF HWO fuel h. exact (static_class_never_aborts_any_history gen wck ord RC OC P sf HS HWF HWO always fuel h).'),
  ('C20_static_class_never_aborts',
   'first clause of the property, as a theorem: for well-formed programs (static class WFP + WFO: they contain no violation in any state) NO session of ANY history of top-down sessions and external changes ever aborts -- no cycle, hidden-dependency or overlapping-write diagnosis can fire, whatever the store recorded in earlier states -- and every require returns (fuel above the height of the required roots). Invariant Q of NoAbort.v: recorded requires go down in ord, recorded writes are own products, every recorded read of a generated resource has its generator among the recorded requires',
   TOTAL_BINDERS + """  forall fuel h, hist_below ord fuel h ->
  Forall (Forall Sim.is_done) (fst (run_history RC OC P always fuel init_world h))""",
   'intros gen wck ord RC OC P sf always HS HWF HWO. exact (static_class_never_aborts RC OC P always gen wck ord sf HS HWF HWO).'),
]
RAW['C01'] += [
  ('C01_total',
   'C01 without assuming that the builds return: in the static class (C20_static_class_never_aborts) both the incremental session and the from-scratch session return, with equal outputs and equal contents of every resource, after any history',
   TOTAL_BINDERS + """  (forall c env r v v', rc_check (RC c) env r v' (sf c r v) = Consistent -> rc_view (RC c) v' = rc_view (RC c) v) ->
  (forall c env r v v', wck c -> rc_check (RC c) env r v' (sf c r v) = Consistent -> v' = v) ->
  (forall c o o', oc_check (OC c) o' (oc_stamp (OC c) o) = true -> oc_view (OC c) o' = oc_view (OC c) o) ->
  forall fuel fuel0 h ops, hist_below ord fuel h -> roots_below ord fuel ops -> roots_below ord fuel0 ops ->
  let w := snd (run_history RC OC P always fuel init_world h) in
  let ra := run_session RC OC P always fuel (new_session w) ops in
  let rb := run_session RC OC P always fuel0 (new_session (fresh_of w)) ops in
  Forall Sim.is_done (fst ra) /\\ Forall Sim.is_done (fst rb) /\\ fst ra = fst rb /\\ forall r, get_content (snd ra) r = get_content (snd rb) r""",
   'intros gen wck ord RC OC P sf always HS HWF HWO HC HW HOC. exact (incremental_equals_scratch_total RC OC P always gen wck ord sf HS HWF HWO HC HW HOC).'),
  ('C01_total_witness',
   'non-vacuity of C01_total: the generator/consumer instance of C01Witness.v is in the static class and its history satisfies the premises',
   """  hist_below ordx 50 hx /\\ roots_below ordx 50 opsx /\\ (forall t, WFO ordx t (Px t)) /\\ (forall t, WFP genx (fun _ => True) t [] (Px t))""",
   'destruct C01_total_premises as [A B]. split; [exact A|split; [exact B|split; [exact HWOx|exact HWFx]]].'),
]

RAW['C03'] = [
  ('C03_complete_static_class',
   'THE PROPERTY, complete, in the static program class with reflexive, view-preserving checkers (the class of C01 + C20): after ANY history whose final store has only consistent recorded dependencies for the tasks with an output, ANY external changes, and the session-opening bottom-up build that is told about every changed resource: the build does not abort, and a following session that requires any known tasks executes NOTHING and returns EXACTLY what the same session returns on a fresh store holding the current resources (which returns), with equal resource contents afterwards. Proof: C03_validity_restored_static_class gives a store in which every recorded dependency is consistent; Idem.v: the requires are then pure re-validations; Sim.v (the C01 simulation, which only needs the store invariants and the exact-record invariant K of the incremental side, both established for every history by NoBugAll / CertAll): incremental and from-scratch sessions agree',
   TOTAL_BINDERS + """  (forall c env r v, rc_check (RC c) env r v (sf c r v) = Consistent) ->   (* resource checkers accept the stamp of the value they stamped *)
  (forall c o, oc_check (OC c) o (oc_stamp (OC c) o) = true) ->          (* output checkers likewise *)
  (forall c env r v v', rc_check (RC c) env r v' (sf c r v) = Consistent -> rc_view (RC c) v' = rc_view (RC c) v) ->   (* an accepting checker shows the same view *)
  (forall c env r v v', wck c -> rc_check (RC c) env r v' (sf c r v) = Consistent -> v' = v) ->                    (* write checkers accept only the written value *)
  (forall c o o', oc_check (OC c) o' (oc_stamp (OC c) o) = true -> oc_view (OC c) o' = oc_view (OC c) o) ->
  forall fuel fuel0 h edits ch ops,
  let wh := snd (run_history RC OC P always fuel init_world h) in
  let w1 := snd (run_history RC OC P always fuel wh (edits_of edits)) in
  AllValid RC OC wh -> (forall r, get_content w1 r <> get_content wh r -> In r ch) -> roots_below ord fuel ops -> roots_below ord fuel0 ops ->
  match session_bottom_up RC OC P fuel (new_session w1) ch with
  | Done _ w' =>
      (forall t, In t (roots ops) -> get_task_output w' t <> None) ->
      let ra := run_session RC OC P always fuel (new_session w') ops in
      let rb := run_session RC OC P always fuel0 (new_session (fresh_of w')) ops in
      execs (rev (trace (snd ra))) = [] /\\ fst ra = fst rb /\\ Forall is_done (fst rb) /\\ forall r, get_content (snd ra) r = get_content (snd rb) r
  | Abort _ _ => False
  | OutOfFuel => True
  end""",
   'intros gen wck ord RC OC P sf always HS HWF HWO HRefl HReflO HC HW HOC fuel fuel0 h edits ch ops. exact (bottom_up_then_require_equals_scratch gen wck ord RC OC P sf HS HWF HWO HRefl HReflO always HC HW HOC fuel fuel0 h edits ch ops).'),
  ('C03_up_to_date_static_class',
   'the main clause, in the static program class (WFP + WFO) with reflexive checkers (a checker accepts the stamp of the value it stamped): after ANY history whose final store has only consistent recorded dependencies for the tasks that have an output ("all known tasks were last consistent": AllValid), then ANY external changes (edits), then the bottom-up build that opens a session and is told about every resource whose content changed: the build does not abort, and requiring any known tasks afterwards (a new session of requires, ops) executes NOTHING, returns the stored outputs and changes no resource. UpToDate.v: invariant of the build on top of OnceAll.v -- every recorded dependency of a task with an output is consistent, or the task is queued, or the dependency is on a task that is executing / has just finished and is about to schedule its dependents (a require of it, a read of a resource it has written in this execution); every dependency an executing task has recorded so far is consistent; tasks executed as new have no dependents. At the end the queue is empty and nothing is executing. (The clause "... equals the from-scratch output" is not part of this theorem: it is decided by the fresh-instance oracle of the check.)',
   TOTAL_BINDERS + """  (forall c env r v, rc_check (RC c) env r v (sf c r v) = Consistent) ->   (* resource checkers accept the stamp of the value they stamped *)
  (forall c o, oc_check (OC c) o (oc_stamp (OC c) o) = true) ->          (* output checkers likewise *)
  forall fuel h edits ch ops,
  let wh := snd (run_history RC OC P always fuel init_world h) in
  let w1 := snd (run_history RC OC P always fuel wh (edits_of edits)) in
  AllValid RC OC wh -> (forall r, get_content w1 r <> get_content wh r -> In r ch) -> roots_below ord fuel ops ->
  match session_bottom_up RC OC P fuel (new_session w1) ch with
  | Done _ w' =>
      (forall t, In t (roots ops) -> get_task_output w' t <> None) ->
      let r := run_session RC OC P always fuel (new_session w') ops in
      fst r = map (fun t => RDone (get_task_output w' t)) (roots ops) /\\ execs (rev (trace (snd r))) = [] /\\
      forall r0, get_content (snd r) r0 = get_content w' r0
  | Abort _ _ => False
  | OutOfFuel => True
  end""",
   'intros gen wck ord RC OC P sf always HS HWF HWO HRefl HReflO fuel h edits ch ops. exact (bottom_up_leaves_tasks_up_to_date gen wck ord RC OC P sf HS HWF HWO HRefl HReflO always fuel h edits ch ops).'),
  ('C03_validity_restored_static_class',
   'the store-level form: under the same premises every recorded dependency of every task that has an output is consistent after the build (AllValid: a recorded require is accepted by its checker on the stored output of the required task, a recorded read / write by its checker on the current content)',
   TOTAL_BINDERS + """  (forall c env r v, rc_check (RC c) env r v (sf c r v) = Consistent) ->
  (forall c o, oc_check (OC c) o (oc_stamp (OC c) o) = true) ->
  forall fuel h edits ch,
  let wh := snd (run_history RC OC P always fuel init_world h) in
  let w1 := snd (run_history RC OC P always fuel wh (edits_of edits)) in
  AllValid RC OC wh -> (forall r, get_content w1 r <> get_content wh r -> In r ch) ->
  match session_bottom_up RC OC P fuel (new_session w1) ch with
  | Done _ w' => AllValid RC OC w' /\\ StoreOK w' /\\ Q gen ord w' /\\ NoRes w' /\\ K RC OC P sf w'
  | Abort _ _ => False
  | OutOfFuel => True
  end""",
   'intros gen wck ord RC OC P sf always HS HWF HWO HRefl HReflO fuel h edits ch. exact (bottom_up_restores_validity gen wck ord RC OC P sf HS HWF HWO HRefl HReflO always fuel h edits ch).'),
]

RAW['C03'] += [
  ('C03_complete_same_session',
   'the same for requires issued in the SAME session, right after update_affected_tasks (the session keeps the consistent set the build left): nothing is executed (the events added contain no execution), the values are those of a from-scratch session on the current resources, the resources are unchanged',
   TOTAL_BINDERS + """  (forall c env r v, rc_check (RC c) env r v (sf c r v) = Consistent) ->
  (forall c o, oc_check (OC c) o (oc_stamp (OC c) o) = true) ->
  (forall c env r v v', rc_check (RC c) env r v' (sf c r v) = Consistent -> rc_view (RC c) v' = rc_view (RC c) v) ->
  (forall c env r v v', wck c -> rc_check (RC c) env r v' (sf c r v) = Consistent -> v' = v) ->
  (forall c o o', oc_check (OC c) o' (oc_stamp (OC c) o) = true -> oc_view (OC c) o' = oc_view (OC c) o) ->
  forall fuel fuel0 h edits ch ops,
  let wh := snd (run_history RC OC P always fuel init_world h) in
  let w1 := snd (run_history RC OC P always fuel wh (edits_of edits)) in
  AllValid RC OC wh -> (forall r, get_content w1 r <> get_content wh r -> In r ch) -> roots_below ord fuel ops -> roots_below ord fuel0 ops ->
  match session_bottom_up RC OC P fuel (new_session w1) ch with
  | Done _ w' =>
      (forall t, In t (roots ops) -> get_task_output w' t <> None) ->
      let ra := run_session RC OC P always fuel w' ops in
      let rb := run_session RC OC P always fuel0 (new_session (fresh_of w')) ops in
      (exists seg, trace (snd ra) = rev seg ++ trace w' /\\ execs seg = []) /\\ fst ra = fst rb /\\ Forall is_done (fst rb) /\\
      forall r, get_content (snd ra) r = get_content (snd rb) r
  | Abort _ _ => False
  | OutOfFuel => True
  end""",
   'intros gen wck ord RC OC P sf always HS HWF HWO HRefl HReflO HC HW HOC fuel fuel0 h edits ch ops. exact (bottom_up_then_require_same_session gen wck ord RC OC P sf HS HWF HWO HRefl HReflO always HC HW HOC fuel fuel0 h edits ch ops).'),
  ('C03_first_build_all_valid',
   'the premise AllValid is established by the first build: after any external edits and a first session of requires on an instance that has built nothing yet, every recorded dependency of every task with an output is consistent (static class, reflexive checkers)',
   TOTAL_BINDERS + """  (forall c env r v, rc_check (RC c) env r v (sf c r v) = Consistent) ->
  (forall c o, oc_check (OC c) o (oc_stamp (OC c) o) = true) ->
  forall fuel edits ops, roots_below ord fuel ops ->
  AllValid RC OC (snd (run_history RC OC P always fuel init_world (edits_of edits ++ [HSession ops])))""",
   'intros gen wck ord RC OC P sf always HS HWF HWO HRefl HReflO fuel edits ops. exact (first_session_AllValid gen wck ord RC OC P sf always HS HWF HWO HRefl HReflO fuel edits ops).'),
  ('C03_change_then_bottom_up_keeps_all_valid',
   '... and is re-established by every batch of external changes followed by a bottom-up build that is told about every changed resource and completes: AllValid is an invariant of the usage "build once, then report every change bottom-up"',
   TOTAL_BINDERS + """  (forall c env r v, rc_check (RC c) env r v (sf c r v) = Consistent) ->
  (forall c o, oc_check (OC c) o (oc_stamp (OC c) o) = true) ->
  forall fuel h edits ch,
  let wh := snd (run_history RC OC P always fuel init_world h) in
  let w1 := snd (run_history RC OC P always fuel wh (edits_of edits)) in
  AllValid RC OC wh -> (forall r, get_content w1 r <> get_content wh r -> In r ch) ->
  (exists u w', session_bottom_up RC OC P fuel (new_session w1) ch = Done u w') ->
  AllValid RC OC (snd (run_history RC OC P always fuel init_world (h ++ edits_of edits ++ [HSession [SBottomUp ch]])))""",
   'intros gen wck ord RC OC P sf always HS HWF HWO HRefl HReflO fuel h edits ch. exact (change_then_bottom_up_keeps_AllValid gen wck ord RC OC P sf always HS HWF HWO HRefl HReflO fuel h edits ch).'),
]

RAW['C03'] += [
  ('C03_requires_of_known_tasks_keep_all_valid',
   '... and by every session of requires of known tasks in such a store (they execute nothing and change nothing)',
   TOTAL_BINDERS + """  (forall c env r v, rc_check (RC c) env r v (sf c r v) = Consistent) ->
  (forall c o, oc_check (OC c) o (oc_stamp (OC c) o) = true) ->
  forall fuel h ops,
  let wh := snd (run_history RC OC P always fuel init_world h) in
  AllValid RC OC wh -> roots_below ord fuel ops -> (forall t, In t (roots ops) -> get_task_output wh t <> None) ->
  AllValid RC OC (snd (run_history RC OC P always fuel init_world (h ++ [HSession ops])))""",
   'intros gen wck ord RC OC P sf always HS HWF HWO HRefl HReflO fuel h ops. exact (requires_of_known_tasks_keep_AllValid gen wck ord RC OC P sf always HS HWF HWO fuel h ops).'),
]

RAW['C03'] += [
  ('C03_requires_keep_all_valid',
   '... and by EVERY session of top-down requires, of known and of new tasks (TdValid.v, 593 lines: known tasks are pure re-validations - Idem.v -, new tasks execute, record fresh and therefore consistent dependencies, and have no dependents; the top-down interpreters never touch the queue). Hence AllValid is an invariant of every history in which each batch of external changes is followed by a session that starts with a bottom-up build told about every changed resource and continues with any requires',
   TOTAL_BINDERS + """  (forall c env r v, rc_check (RC c) env r v (sf c r v) = Consistent) ->
  (forall c o, oc_check (OC c) o (oc_stamp (OC c) o) = true) ->
  forall fuel h ops,
  let wh := snd (run_history RC OC P always fuel init_world h) in
  AllValid RC OC wh -> roots_below ord fuel ops ->
  AllValid RC OC (snd (run_history RC OC P always fuel init_world (h ++ [HSession ops])))""",
   'intros gen wck ord RC OC P sf always HS HWF HWO HRefl HReflO fuel h ops. exact (requires_keep_AllValid gen wck ord RC OC P sf HS HWF HWO HRefl HReflO always fuel h ops).'),
]

RAW['C03'] += [
  ('C03_known_tasks_up_to_date_static_class',
   'the property with "known to the Pie instance" read literally (the task has a node in the dependency store): same premises as C03_up_to_date_static_class; every KNOWN task, required afterwards, is not executed and returns its stored output (which C03_complete_static_class shows to be the from-scratch output). UpToDateKnown.v, from FullOut.v',
   TOTAL_BINDERS + """  (forall c env r v, rc_check (RC c) env r v (sf c r v) = Consistent) ->
  (forall c o, oc_check (OC c) o (oc_stamp (OC c) o) = true) ->
  forall fuel h edits ch ops,
  let wh := snd (run_history RC OC P always fuel init_world h) in
  let w1 := snd (run_history RC OC P always fuel wh (edits_of edits)) in
  AllValid RC OC wh -> (forall r, get_content w1 r <> get_content wh r -> In r ch) -> roots_below ord fuel ops ->
  match session_bottom_up RC OC P fuel (new_session w1) ch with
  | Done _ w' =>
      (forall t, In t (roots ops) -> live (gr w') (tn t) = true) ->
      let r := run_session RC OC P always fuel (new_session w') ops in
      fst r = map (fun t => RDone (get_task_output w' t)) (roots ops) /\\ execs (rev (trace (snd r))) = [] /\\
      forall r0, get_content (snd r) r0 = get_content w' r0
  | Abort _ _ => False
  | OutOfFuel => True
  end""",
   'intros gen wck ord RC OC P sf always HS HWF HWO HRefl HReflO fuel h edits ch ops. exact (bottom_up_leaves_known_tasks_up_to_date gen wck ord RC OC P sf always HS HWF HWO HRefl HReflO fuel h edits ch ops).'),
  ('C03_every_known_task_has_an_output_static_class',
   'FullOut.v: in the static class, after ANY history, every task that has a node in the store has an output ("known" and "has a cached output" coincide). Invariant for ALL programs: a task node is live only if the task has an output, or its execution is open, or a require of it is in progress',
   TOTAL_BINDERS + """  forall fuel h,
  let w := snd (run_history RC OC P always fuel init_world h) in
  forall t, live (gr w) (tn t) = true -> get_task_output w t <> None""",
   'intros gen wck ord RC OC P sf always HS HWF HWO fuel h. exact (static_class_every_known_task_has_an_output gen wck ord RC OC P sf always HS HWF HWO fuel h).'),
]

RAW['C04'] = [
  ('C04_at_most_once_requires_then_bottom_up',
   'at most once for sessions that MIX the two kinds of build (static class, reflexive checkers, after ANY history): a session of top-down requires followed by a bottom-up build executes no task twice in the WHOLE session - the bottom-up build executes no task twice and none that a require of the same session already executed. MixedOnce.v: the top-down part leaves a consistent set closed under dependencies whose recorded dependencies are all accepted (Valid.v), so the initial scheduling queues none of them and the invariant of OnceAll.v holds when the build starts',
   TOTAL_BINDERS + """  (forall c env r v, rc_check (RC c) env r v (sf c r v) = Consistent) ->
  (forall c o, oc_check (OC c) o (oc_stamp (OC c) o) = true) ->
  forall fuel h tdops ch, roots_below ord fuel tdops ->
  let w := new_session (snd (run_history RC OC P always fuel init_world h)) in
  let v := snd (run_session RC OC P always fuel w tdops) in
  match session_bottom_up RC OC P fuel v ch with
  | Done _ w' => NoDup (execs (trace w'))
  | Abort _ _ => False
  | OutOfFuel => True
  end""",
   'intros gen wck ord RC OC P sf always HS HWF HWO HR HRO fuel h tdops ch. exact (requires_then_bottom_up_at_most_once gen wck ord RC OC P sf always HS HWF HWO HR HRO fuel h tdops ch).'),
  ('C04_at_most_once_static_class',
   'the at-most-once clause, FULL, in the static program class (WFP + WFO, as in C20), for the bottom-up build that opens a session after ANY history (top-down, bottom-up and mixed sessions, external changes): the build does not abort and NO task is executed twice (execs = the tasks of the execution-start events of the build, newest first). OnceAll.v: invariant of the build -- nothing reachable from a task the session already holds consistent is queued or executing; an executing task has recorded requires only to consistent tasks and reads only of resources whose generator is consistent; a task is marked consistent only when everything reachable from it is settled; a task is scheduled only through a dependency on a task not reachable from the consistent set; every started task is consistent or still executing -- carried through every bottom-up interpreter on top of the NoReentry / NoBugAll / CertAll / NoAbortAll bundles and HasOut.v',
   TOTAL_BINDERS + """  forall fuel h ch,
  let w := new_session (snd (run_history RC OC P always fuel init_world h)) in
  match session_bottom_up RC OC P fuel w ch with
  | Done _ w' => NoDup (execs (trace w'))
  | Abort _ _ => False
  | OutOfFuel => True
  end""",
   'intros gen wck ord RC OC P sf always HS HWF HWO fuel h ch. exact (bottom_up_at_most_once gen wck ord RC OC P sf HS HWF HWO always fuel h ch).'),
  ('C04_recorded_requires_have_outputs',
   'used by it, and of independent interest (C03: "every task known to the instance"): in the static class, after ANY history every recorded require dependency in the store points to a task that has an output -- no task is left half-built (HasOut.v: in every build, for all programs, a recorded require points to a task with an output or to one that is executing; with no aborts nothing stays executing at the end of a session)',
   TOTAL_BINDERS + """  forall fuel h,
  let w := snd (run_history RC OC P always fuel init_world h) in
  forall x y c st, row w x (tn y) = Some (DRequire y c st) -> get_task_output w y <> None""",
   'intros gen wck ord RC OC P sf always HS HWF HWO fuel h w. apply (run_history_HBs gen wck ord RC OC P sf HS HWF HWO always fuel h init_world); [split; [apply L_init|intros x d X; discriminate]|apply K_init|apply Q_init|apply HBs_init].'),
]

RAW['C05'] = [
  ('C05_hence_static_class_any_history',
   'the "Hence" clause for ALL histories (top-down, bottom-up and mixed sessions): in every reachable store of the static class every task with a recorded read of a resource directly requires the task recorded as its writer, so the writer is a transitive dependency of the reader (NoAbortAll.v: Q is an invariant of every history)',
   TOTAL_BINDERS + """  forall fuel h,
  let w := snd (run_history RC OC P always fuel init_world h) in
  forall rd g r dp dp', row w rd (rn r) = Some dp -> is_read (Some dp) = true -> row w g (rn r) = Some dp' -> is_write (Some dp') = true ->
    In (tn g) (kidsT w rd) /\\ contains_transitive_task_dependency w rd g = Some true""",
   'intros gen wck ord RC OC P sf always HS HWF HWO fuel h. exact (static_class_readers_require_writer_any_history gen wck ord RC OC P sf HS HWF HWO always fuel h).'),
  ('C05_hence_static_class',
   'the "Hence" clause, for well-formed programs: in the store after ANY history of top-down sessions (also after aborted builds, also for tasks still without output) every task with a recorded read of a resource directly requires the task recorded as its writer, so the writer is a transitive dependency of every reader. Outside the static class the clause is refuted (recorded finding O6, C05_final_store_refuted)',
   TOTAL_BINDERS + """  forall fuel h, hist_below ord fuel h ->
  let w := snd (run_history RC OC P always fuel init_world h) in
  forall rd g r dp dp', row w rd (rn r) = Some dp -> is_read (Some dp) = true -> row w g (rn r) = Some dp' -> is_write (Some dp') = true ->
    In (tn g) (kidsT w rd) /\\ contains_transitive_task_dependency w rd g = Some true""",
   'intros gen wck ord RC OC P sf always HS HWF HWO. exact (static_class_readers_require_writer RC OC P always gen wck ord sf HS HWF HWO).'),
]

RAW['C02'] = [
  ('C02_no_execution_beyond_from_scratch',
   'the last clause, as a theorem (for every checker of the class, not only exact ones): after any history of top-down sessions and external changes, every task the incremental session executes is also executed by the from-scratch session on the same resources (both sessions returning); proved from the simulation of C01 (the two sessions make the same tasks consistent, and a from-scratch session executes every task it makes consistent)',
   C01_BINDERS + """  forall fuel fuel0 h ops, td_hist h -> td_only ops ->
  let w := snd (run_history RC OC P always fuel init_world h) in
  let ra := run_session RC OC P always fuel (new_session w) ops in
  let rb := run_session RC OC P always fuel0 (new_session (fresh_of w)) ops in
  Forall Sim.is_done (fst ra) -> Forall Sim.is_done (fst rb) ->
  forall x, In x (execs (rev (trace (snd ra)))) -> In x (execs (rev (trace (snd rb))))""",
   'intros gen wck RC OC P sf always HS HWF HC HW HOC. exact (incremental_executes_subset_all RC OC P always gen wck sf HS HWF HC HW HOC).'),
]

RAW['C02'] += [
  ('C02_requiring_again_executes_nothing',
   'idempotence: in the static class, with reflexive checkers (a checker accepts the value it has just stamped), after ANY history, a session of requires followed by the same session again with nothing changed in between: the second session executes NO task, returns the same outputs and leaves every resource as it was. Valid.v: VC (every consistent task has only dependencies its checkers accept in the current state) is a session invariant; Idem.v: from such a state validation succeeds everywhere without executing',
   TOTAL_BINDERS + """  (forall c env r v, rc_check (RC c) env r v (sf c r v) = Consistent) ->
  (forall c o, oc_check (OC c) o (oc_stamp (OC c) o) = true) ->
  forall fuel h ops, hist_below ord fuel h -> roots_below ord fuel ops ->
  let w := snd (run_history RC OC P always fuel init_world h) in
  let r1 := run_session RC OC P always fuel (new_session w) ops in
  let r2 := run_session RC OC P always fuel (new_session (snd r1)) ops in
  fst r2 = fst r1 /\\ execs (rev (trace (snd r2))) = [] /\\ forall r, get_content (snd r2) r = get_content (snd r1) r""",
   'intros gen wck ord RC OC P sf always HS HWF HWO HR HRO. exact (second_session_executes_nothing gen wck ord RC OC P sf always HS HWF HWO HR HRO).'),
  ('C02_idempotence_witness',
   'non-vacuity: the generator/consumer instance of C01Witness.v has reflexive checkers; its second session executes nothing',
   """  let r1 := run_session RCx OCx Px 0 50 (new_session (snd (run_history RCx OCx Px 0 50 init_world hx))) opsx in
  let r2 := run_session RCx OCx Px 0 50 (new_session (snd r1)) opsx in
  fst r2 = fst r1 /\\ execs (rev (trace (snd r2))) = []""",
   'exact C02_idempotence_instance.'),
]

RAW['C02'] += [
  ('C02_no_execution_beyond_from_scratch_any_history',
   'the last clause over EVERY history (bottom-up builds and aborted builds included): every task the incremental session executes is also executed by the from-scratch session in the current state',
   C01_BINDERS + """  forall fuel fuel0 h ops, td_only ops ->
  let w := snd (run_history RC OC P always fuel init_world h) in
  let ra := run_session RC OC P always fuel (new_session w) ops in
  let rb := run_session RC OC P always fuel0 (new_session (fresh_of w)) ops in
  Forall Sim.is_done (fst ra) -> Forall Sim.is_done (fst rb) ->
  forall x, In x (execs (rev (trace (snd ra)))) -> In x (execs (rev (trace (snd rb))))""",
   'intros gen wck RC OC P sf always HS HWF HC HW HOC. exact (incremental_executes_subset_any_history gen wck RC OC P sf always HS HWF HC HW HOC).'),
]

RAW['C02'] += [
  ('C02_requiring_again_executes_nothing_any_history',
   'idempotence over EVERY history (static class, reflexive checkers): after any history - bottom-up builds, mixed sessions included - a session of requires followed by the same session again with nothing changed returns the same values, executes NOTHING and changes no resource',
   TOTAL_BINDERS + """  (forall c env r v, rc_check (RC c) env r v (sf c r v) = Consistent) ->
  (forall c o, oc_check (OC c) o (oc_stamp (OC c) o) = true) ->
  forall fuel h ops, roots_below ord fuel ops ->
  let w := snd (run_history RC OC P always fuel init_world h) in
  let r1 := run_session RC OC P always fuel (new_session w) ops in
  let r2 := run_session RC OC P always fuel (new_session (snd r1)) ops in
  fst r2 = fst r1 /\\ execs (rev (trace (snd r2))) = [] /\\ forall r, get_content (snd r2) r = get_content (snd r1) r""",
   'intros gen wck ord RC OC P sf always HS HWF HWO HR HRO fuel h ops. exact (second_session_executes_nothing_any_history gen wck ord RC OC P sf always HS HWF HWO HR HRO fuel h ops).'),
]

#!/usr/bin/env python3
"""copies a validated seeded change into /verif/seeded/<name>/ with meta.json"""
import json, os, shutil, sys
src, name, prop, needs, caught = sys.argv[1:6]
d = os.path.join('/verif/seeded', name)
os.makedirs(d, exist_ok=True)
shutil.copy(os.path.join(src, 'patch.diff'), d)
for f in os.listdir(src):
    if f.endswith('.rs'): shutil.copy(os.path.join(src, f), d)
if os.path.exists(os.path.join(src, 'notes.md')): shutil.copy(os.path.join(src, 'notes.md'), d)
meta = {'property': prop, 'needs_to_manifest': needs,
        'confirmed': 'tools/seedtest.sh in a scratch worktree of /repo HEAD: baseline suite (40 tests + 18 doctests) passes with the change; demo fails with it and passes without it',
        'caught_by': caught,
        'ran': 'git -C /repo apply patch.diff; ./check <ids>; git -C /repo checkout -- .'}
json.dump(meta, open(os.path.join(d, 'meta.json'), 'w'), indent=1)
print('saved', d)

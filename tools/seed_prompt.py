#!/usr/bin/env python3
# prints the prompt given to an independent seeding sub-agent for property <id> (only the property text + a scratch worktree)
import json,sys
pid=sys.argv[1]; wt=sys.argv[2]
for l in open('/verif/properties.jsonl'):
    p=json.loads(l)
    if p['id']==pid: break
print(f"""You are working on a scratch git worktree of the Rust project Gohla/pie (PIE: a programmatic incremental build system library; crates `pie` in pie/ and `pie_graph` in graph/) located at {wt}. Work ONLY inside {wt} (never touch /repo or /verif, never read /verif). The sandbox is offline: always pass --offline to cargo and set CARGO_TARGET_DIR={wt}/target.

Here is a semantic property that the code base is supposed to satisfy:

Title: {p['title']}
Statement: {p['statement']}
Quantified over: {p['quantifier']['text']}

Your job: produce ONE realistic change (a plausible bug a developer could introduce: a refactoring slip, an 'optimisation', a wrong condition, an off-by-one, swapped arguments, a dropped line ...) to the library source (pie/src or graph/src, not tests) that BREAKS this property while
 (1) the workspace still compiles, and
 (2) the existing test suite still passes: `cd {wt} && CARGO_TARGET_DIR={wt}/target cargo test --workspace --no-fail-fast --offline` (40 tests + doctests must all still pass), and
 (3) the breakage needs something specific to manifest -- a multi-step sequence of operations / builds, a particular order, an unusual input, a particular graph shape, a fault at a particular point, or two cooperating sites that each look fine alone -- i.e. NOT something ordinary use would expose at once.
Also write a demonstration: a Rust integration test file (e.g. {wt}/pie/tests/seed_demo.rs or {wt}/graph/tests/seed_demo.rs; only public API; dev-dependencies already available: dev_util, dev_ext, assert_matches, testresult, tempfile via dev_util) that FAILS with your change and PASSES on the unmodified code. Verify both yourself (use `git diff > p.diff; git checkout -- pie graph` to test the unmodified code, then `git apply p.diff`; NEVER use `git stash`: the stash is shared between worktrees).

Deliverables, all inside {wt}/seed_out/ :
  - patch.diff : `git diff` of the library change ONLY (not the demo test), applicable with `git apply` at the repository root
  - the demo test file (copy), and
  - notes.md : which property it breaks and why, what specific circumstances it needs to manifest, exactly which commands you ran and what they printed (test summary lines) for: existing suite with change (pass), demo with change (fail), demo without change (pass).
Leave the worktree with the patch applied and the demo test in place. Keep it small (the patch should be a handful of lines). Do not use network. Finish by replying with a 5-line summary.""")

#!/bin/bash
# usage: tools/seedtest.sh <seed dir with patch.diff and demo test> <property ids to check...>
# 1. confirms the seeded change in a scratch worktree of /repo HEAD: baseline suite passes with it, demo fails with it and
#    passes without it; 2. applies it to /repo, runs the given checks, and undoes it straight afterwards.
set -u
SD=$1; shift
PROPS="$@"
WT=/tmp/seedwt.$$
git -C /repo worktree add --detach $WT HEAD >/dev/null 2>&1 || exit 2
demo=$(ls $SD/*.rs | head -1)
crate=pie; grep -q "pie_graph" $demo && ! grep -q "use pie::" $demo && crate=graph
export CARGO_TARGET_DIR=/tmp/seedtarget CARGO_NET_OFFLINE=true
FEAT=""; grep -q file_hash_checker $demo && FEAT="--features file_hash_checker"
( cd $WT && git apply $SD/patch.diff ) || { echo "PATCH DOES NOT APPLY"; git -C /repo worktree remove --force $WT; exit 2; }
base=$(cd $WT && cargo test --workspace --no-fail-fast --offline 2>&1 | grep "^test result" | awk '{p+=$4; f+=$6} END {print p" passed "f" failed"}')
echo "baseline with change: $base"
mkdir -p $WT/$crate/tests; cp $demo $WT/$crate/tests/seed_demo.rs
with=$(cd $WT && cargo test -p $( [ $crate = pie ] && echo pie || echo pie_graph ) --test seed_demo $FEAT --offline 2>&1 | grep "^test result" | tail -1)
echo "demo with change: $with"
( cd $WT && git apply -R $SD/patch.diff )
without=$(cd $WT && cargo test -p $( [ $crate = pie ] && echo pie || echo pie_graph ) --test seed_demo $FEAT --offline 2>&1 | grep "^test result" | tail -1)
echo "demo without change: $without"
git -C /repo worktree remove --force $WT
# now the checks against /repo itself
git -C /repo apply $SD/patch.diff || exit 2
for p in $PROPS; do
  out=$(cd /verif && ./check $p 2>&1 | grep -E "^VIOLATION|^KNOWN|^BROKEN|^  " | cut -c1-300 | head -6)
  echo "--- check $p:"; echo "$out"
done
git -C /repo checkout -- .
git -C /repo status --short | head -3
